(** * C01c — property C01 at full strength, along every history: on every board reached by
    play from the from-scratch board of a valid position, the generated moves are exactly the
    legal moves of the FIDE specification, each once; [Board::legal] answers "yes" exactly for
    them; [MoveGen::len] is their number; applying a generated move never panics; and
    [MoveGen::legal_quick] confirms every generated move.

    Vocabulary ([Proofs/CorAReach.v]):
    - [from_scratch p] ([Model.Board]): the board the library builds for the specification
      position [p]; [abs_board b]: the specification position a board shows.
    - [ReachGen p0 b]: [b] is reached from [from_scratch p0] by any finite sequence of
      (i) moves [c] that the library's own generator produced on the current board
      ([In c (moves_of b)], applied by [make_move_new] = [Board::make_move_new]) and
      (ii) null moves that [Board::null_move] accepted.  The definition does not mention the
      specification.  For a valid [p0] it coincides with [StepCanon.ReachLib p0] (moves taken
      from the specification's [legal_moves]): [C01c_reachgen_iff_reachlib].
    - [pos_valid] ([Spec.Rules]): the valid positions.

    Proofs: [Proofs/CorAReach.v], [Proofs/CorAQuick.v]; they combine T_gen
    ([Proofs/GenAsmFinal.v]), the round trip ([Proofs/RoundTripMain.v]) and the step theorems
    ([Proofs/StepCanon.v]). *)
From Coq Require Import NArith List Bool Permutation.
From Chess Require Import Base.Bits Spec.Geometry Spec.Rules Model.Board Model.MoveGen.
From Chess Require Import Proofs.AbsBoard Proofs.NullMove Proofs.GenWF Proofs.StepCanon Proofs.SpecInvGoals Proofs.CorAReach Proofs.CorAQuick.
Import ListNotations.
Open Scope N_scope.

(** the closure under the library's own moves is the closure under the specification's legal moves *)
Theorem C01c_reachgen_iff_reachlib : forall p0 b, pos_valid p0 = true -> (ReachGen p0 b <-> ReachLib p0 b).
Proof. exact reachgen_iff_reachlib. Qed.
Check C01c_reachgen_iff_reachlib : forall p0 b, pos_valid p0 = true -> (ReachGen p0 b <-> ReachLib p0 b).
Print Assumptions C01c_reachgen_iff_reachlib.

(** every reached board is canonical, shows a valid position, passes [is_sane], is well formed *)
Theorem C01c_invariants : forall p0 b, pos_valid p0 = true -> ReachGen p0 b ->
  Canonical b /\ pos_valid (abs_board b) = true /\ is_sane b = true /\ BoardWF b.
Proof. exact reachgen_invariants. Qed.
Check C01c_invariants : forall p0 b, pos_valid p0 = true -> ReachGen p0 b ->
  Canonical b /\ pos_valid (abs_board b) = true /\ is_sane b = true /\ BoardWF b.
Print Assumptions C01c_invariants.

(** (a) a full iteration of the generator yields exactly the legal moves, each once *)
Theorem C01c_moves_of : forall p0 b, pos_valid p0 = true -> ReachGen p0 b ->
  Permutation (moves_of b) (map of_spec_move (legal_moves (abs_board b))) /\ NoDup (moves_of b).
Proof. exact c01c_moves_of. Qed.
Check C01c_moves_of : forall p0 b, pos_valid p0 = true -> ReachGen p0 b ->
  Permutation (moves_of b) (map of_spec_move (legal_moves (abs_board b))) /\ NoDup (moves_of b).
Print Assumptions C01c_moves_of.

(** (b) [Board::legal] says yes exactly for the legal moves, for every triple whatsoever *)
Theorem C01c_legal_query : forall p0 b, pos_valid p0 = true -> ReachGen p0 b ->
  forall m, legal b m = true <-> In m (map of_spec_move (legal_moves (abs_board b))).
Proof. exact c01c_legal_query. Qed.
Check C01c_legal_query : forall p0 b, pos_valid p0 = true -> ReachGen p0 b ->
  forall m, legal b m = true <-> In m (map of_spec_move (legal_moves (abs_board b))).
Print Assumptions C01c_legal_query.

(** (b') the same, reading the move as a move of the specification *)
Theorem C01c_legal_fide : forall p0 b, pos_valid p0 = true -> ReachGen p0 b ->
  forall m, legal b m = true <-> In (to_spec_move m) (legal_moves (abs_board b)).
Proof. exact c01c_legal_fide. Qed.
Check C01c_legal_fide : forall p0 b, pos_valid p0 = true -> ReachGen p0 b ->
  forall m, legal b m = true <-> In (to_spec_move m) (legal_moves (abs_board b)).
Print Assumptions C01c_legal_fide.

(** (c) [MoveGen::len] of a fresh generator is the number of legal moves *)
Theorem C01c_len : forall p0 b, pos_valid p0 = true -> ReachGen p0 b ->
  len (new_legal b) = N.of_nat (length (legal_moves (abs_board b))).
Proof. exact c01c_len. Qed.
Check C01c_len : forall p0 b, pos_valid p0 = true -> ReachGen p0 b ->
  len (new_legal b) = N.of_nat (length (legal_moves (abs_board b))).
Print Assumptions C01c_len.

(** (d) applying a generated move never panics; the result is reached again and shows the successor position *)
Theorem C01c_no_panic : forall p0 b, pos_valid p0 = true -> ReachGen p0 b ->
  forall c, In c (moves_of b) ->
  exists b', make_move_new b (msrc c) (mdst c) (mpromo c) = Some b' /\ ReachGen p0 b' /\
             abs_board b' = apply (abs_board b) (to_spec_move c).
Proof. exact c01c_no_panic. Qed.
Check C01c_no_panic : forall p0 b, pos_valid p0 = true -> ReachGen p0 b ->
  forall c, In c (moves_of b) ->
  exists b', make_move_new b (msrc c) (mdst c) (mpromo c) = Some b' /\ ReachGen p0 b' /\
             abs_board b' = apply (abs_board b) (to_spec_move c).
Print Assumptions C01c_no_panic.

(** (d') the same for every move that [Board::legal] accepts *)
Theorem C01c_legal_no_panic : forall p0 b, pos_valid p0 = true -> ReachGen p0 b ->
  forall c, legal b c = true ->
  exists b', make_move_new b (msrc c) (mdst c) (mpromo c) = Some b' /\ ReachGen p0 b'.
Proof. exact c01c_legal_no_panic. Qed.
Check C01c_legal_no_panic : forall p0 b, pos_valid p0 = true -> ReachGen p0 b ->
  forall c, legal b c = true ->
  exists b', make_move_new b (msrc c) (mdst c) (mpromo c) = Some b' /\ ReachGen p0 b'.
Print Assumptions C01c_legal_no_panic.

(** (e) [MoveGen::legal_quick] does not panic and says yes on every generated move *)
Theorem C01c_legal_quick : forall p0 b, pos_valid p0 = true -> ReachGen p0 b ->
  forall c, In c (moves_of b) -> legal_quick b c = Some true.
Proof. exact c01c_legal_quick. Qed.
Check C01c_legal_quick : forall p0 b, pos_valid p0 = true -> ReachGen p0 b ->
  forall c, In c (moves_of b) -> legal_quick b c = Some true.
Print Assumptions C01c_legal_quick.
