(** * Proofs.DrawExamples — the hypotheses of the C11b theorems are satisfiable: the knight
    shuffle from the start position (Ng1-f3 Ng8-f6 Nf3-g1 Nf6-g8, twice). *)
From Coq Require Import NArith List Bool.
From Chess Require Import Spec.Rules Spec.Draw Model.Board Model.MoveGen Model.Game.
From Chess Require Import Proofs.GameBase Proofs.GameThreefold Proofs.GameScan Proofs.GameProtocol
  Proofs.GameClaims Proofs.GameExamples Proofs.DrawMeasure Proofs.DrawHistory.
Import ListNotations.
Open Scope N_scope.

Example startpos_valid : pos_valid startpos = true.
Proof. vm_compute. reflexivity. Qed.
Example sb_from_scratch : from_scratch startpos = sb.
Proof. vm_compute. reflexivity. Qed.
Example g8_reachable_fs : Reachable (from_scratch startpos) g8.
Proof. rewrite sb_from_scratch. exact g8_reachable. Qed.
Example g4_reachable_fs : Reachable (from_scratch startpos) g4.
Proof.
  rewrite sb_from_scratch.
  apply (Reachable_run sb (new_with_board sb) shuffle g4); [apply R_new|exact g4_run].
Qed.

(** a decision procedure for [NoHashCollision] on a concrete game *)
Lemma no_collision_dec b0 l :
  forallb (fun b1 => forallb (fun b2 =>
     implb (key_eqb (pos_key b1) (pos_key b2)) (pos_eqb (abs_board b1) (abs_board b2)))
     (history b0 l)) (history b0 l) = true ->
  NoHashCollision b0 l.
Proof.
  intros H b1 b2 H1 H2 E.
  rewrite forallb_forall in H. specialize (H b1 H1). rewrite forallb_forall in H. specialize (H b2 H2).
  rewrite (proj2 (key_eqb_eq _ _) E) in H. exact H.
Qed.
Example g8_no_collision : NoHashCollision (from_scratch startpos) (actions g8).
Proof. apply no_collision_dec. vm_compute. reflexivity. Qed.
Example g4_no_collision : NoHashCollision (from_scratch startpos) (actions g4).
Proof. apply no_collision_dec. vm_compute. reflexivity. Qed.

(** the claim and the rule agree on both games, by computation ... *)
Example shuffle_agree :
  can_claim startpos (log_moves (actions g8)) = true /\ can_declare_draw g8 = Some true /\
  can_claim startpos (log_moves (actions g4)) = false /\ can_declare_draw g4 = Some false.
Proof. vm_compute. repeat split. Qed.
Example shuffle_counts :
  rep_count startpos (log_moves (actions g8)) = 3 /\ clock startpos (log_moves (actions g8)) = 8 /\
  rep_count startpos (log_moves (actions g4)) = 2 /\ clock startpos (log_moves (actions g4)) = 4.
Proof. vm_compute. repeat split. Qed.

(** ... and by the theorems *)
Example g8_complete_instance : can_declare_draw g8 = Some true.
Proof.
  apply (claim_complete startpos startpos_valid g8 g8_reachable_fs g8_open).
  vm_compute. reflexivity.
Qed.
Example g8_sound_instance : can_claim (abs_board (from_scratch startpos)) (log_moves (actions g8)) = true.
Proof. exact (claim_sound startpos startpos_valid g8 g8_reachable_fs g8_no_collision g8_claim). Qed.
Example g8_history :
  current_position g8 = Some (from_scratch (final_pos startpos (log_moves (actions g8)))) /\
  clock_g g8 = clock startpos (log_moves (actions g8)).
Proof.
  split; [apply (history_refines startpos startpos_valid g8 g8_reachable_fs)|
          apply (clock_is_spec_clock startpos startpos_valid g8 g8_reachable_fs)].
Qed.

(** the measure on the start position: 16 pieces of weight 8, eight white pawns on rank 1
    (weight 15), eight black pawns on rank 6 (weight 15), four rights *)
Example mu_startpos : mu startpos = 372%nat.
Proof. vm_compute. reflexivity. Qed.
(** 1.e4 is a pawn move: it is zeroing and [mu] drops by two *)
Example mu_after_e4 :
  existsb (fun m => (src m =? 12) && (dst m =? 28)) (legal_moves startpos) = true /\
  zeroing startpos (mv 12 28) = true /\
  mu (apply startpos (mv 12 28)) = 370%nat.
Proof. vm_compute. repeat split. Qed.
