(* Correspondence driver, common part: conversions between the harness's text protocol and
   the extracted Coq values, mismatch / statistics reporting. *)
open Model

let rec pos_of_int n = if n = 1 then XH else if n land 1 = 0 then XO (pos_of_int (n lsr 1)) else XI (pos_of_int (n lsr 1))
let n_of_int n = if n <= 0 then N0 else Npos (pos_of_int n)
let rec int_of_pos = function XH -> 1 | XO p -> 2 * int_of_pos p | XI p -> 2 * int_of_pos p + 1
let int_of_n = function N0 -> 0 | Npos p -> int_of_pos p
let rec nat_of_int n = if n <= 0 then O else S (nat_of_int (n-1))
let rec int_of_nat = function O -> 0 | S n -> 1 + int_of_nat n

(* u64 <-> N through Int64 bit patterns *)
let n_of_int64 (v:int64) : n =
  let r = ref N0 in
  for i = 63 downto 0 do
    let b = Int64.logand (Int64.shift_right_logical v i) 1L = 1L in
    r := (match !r, b with
          | N0, false -> N0 | N0, true -> Npos XH
          | Npos p, false -> Npos (XO p) | Npos p, true -> Npos (XI p))
  done; !r
let int64_of_n (x:n) : int64 =
  let rec go p i acc = match p with
    | XH -> Int64.logor acc (Int64.shift_left 1L i)
    | XO q -> go q (i+1) acc
    | XI q -> go q (i+1) (Int64.logor acc (Int64.shift_left 1L i)) in
  match x with N0 -> 0L | Npos p -> go p 0 0L
let n_of_u64s (s:string) : n = n_of_int64 (Int64.of_string ("0u" ^ s))
let u64s_of_n (x:n) : string = Printf.sprintf "%Lu" (int64_of_n x)
(* N values that may exceed 64 bits are never printed; widths are checked by the model *)

let str_of_codes (l:int list) : n list = List.map n_of_int l
(* decode UTF-8 bytes (hex) into scalar values *)
let codes_of_utf8 (b:string) : int list =
  let n = String.length b in
  let rec go i acc =
    if i >= n then List.rev acc else
    let c = Char.code b.[i] in
    if c < 0x80 then go (i+1) (c :: acc)
    else if c < 0xE0 && i+1 < n then go (i+2) ((((c land 0x1F) lsl 6) lor (Char.code b.[i+1] land 0x3F)) :: acc)
    else if c < 0xF0 && i+2 < n then go (i+3) ((((c land 0x0F) lsl 12) lor ((Char.code b.[i+1] land 0x3F) lsl 6) lor (Char.code b.[i+2] land 0x3F)) :: acc)
    else if i+3 < n then go (i+4) ((((c land 0x07) lsl 18) lor ((Char.code b.[i+1] land 0x3F) lsl 12) lor ((Char.code b.[i+2] land 0x3F) lsl 6) lor (Char.code b.[i+3] land 0x3F)) :: acc)
    else List.rev acc in
  go 0 []
let bytes_of_hex (h:string) : string =
  if h = "-" then "" else
  String.init (String.length h / 2) (fun i -> Char.chr (int_of_string ("0x" ^ String.sub h (2*i) 2)))
let str_of_hex (h:string) : n list = str_of_codes (codes_of_utf8 (bytes_of_hex h))
let utf8_of_codes (l:int list) : string =
  let b = Buffer.create 16 in
  List.iter (fun c -> Buffer.add_utf_8_uchar b (Uchar.of_int c)) l; Buffer.contents b
let string_of_str (s:n list) : string = utf8_of_codes (List.map int_of_n s)
let hex_of_string (s:string) : string =
  if s = "" then "-" else String.concat "" (List.map (fun c -> Printf.sprintf "%02x" (Char.code c)) (List.init (String.length s) (String.get s)))

(* ---- reporting ---- *)
let mismatches : (string, int) Hashtbl.t = Hashtbl.create 16
let stats : (string, int) Hashtbl.t = Hashtbl.create 64
let samples : (string, string list) Hashtbl.t = Hashtbl.create 16
let bump ?(by=1) k = Hashtbl.replace stats k (by + (try Hashtbl.find stats k with Not_found -> 0))
let total_mismatches = ref 0
let mismatch (tag:string) (detail:string) =
  incr total_mismatches;
  let c = try Hashtbl.find mismatches tag with Not_found -> 0 in
  Hashtbl.replace mismatches tag (c+1);
  if c < 5 then Printf.printf "MISMATCH %s %s\n" tag detail
let sample (k:string) (s:string) =
  let l = try Hashtbl.find samples k with Not_found -> [] in
  if List.length l < 3 then Hashtbl.replace samples k (s :: l)
let distinct : (string, unit) Hashtbl.t = Hashtbl.create 100000
let note_distinct (key:string) = if Hashtbl.mem distinct key then false else (Hashtbl.add distinct key (); true)
let finish () =
  Hashtbl.iter (fun k v -> Printf.printf "STAT %s %d\n" k v) stats;
  Hashtbl.iter (fun k v -> Printf.printf "NMISMATCH %s %d\n" k v) mismatches;
  Hashtbl.iter (fun k l -> List.iter (fun s -> Printf.printf "SAMPLE %s %s\n" k s) l) samples;
  Printf.printf "DONE\n"

(* ---- positions ---- *)
let pc_of_char c : (ptype * color) option = match c with
  | 'P' -> Some (Pawn,White) | 'N' -> Some (Knight,White) | 'B' -> Some (Bishop,White)
  | 'R' -> Some (Rook,White) | 'Q' -> Some (Queen,White) | 'K' -> Some (King,White)
  | 'p' -> Some (Pawn,Black) | 'n' -> Some (Knight,Black) | 'b' -> Some (Bishop,Black)
  | 'r' -> Some (Rook,Black) | 'q' -> Some (Queen,Black) | 'k' -> Some (King,Black)
  | _ -> None
let char_of_pc = function
  | None -> '.'
  | Some (t,c) ->
    let l = (match t with Pawn -> 'p' | Knight -> 'n' | Bishop -> 'b' | Rook -> 'r' | Queen -> 'q' | King -> 'k') in
    (match c with White -> Char.uppercase_ascii l | Black -> l)

(* neutral encoding -> builder *)
let builder_of_enc (e:string) : builder =
  match String.split_on_char ' ' (String.trim e) with
  | [pl; side; kw; kb; ep] ->
    { bpieces = List.init 64 (fun i -> pc_of_char pl.[i]);
      bstm = (if side = "w" then White else Black);
      bcrW = n_of_int (int_of_string kw); bcrB = n_of_int (int_of_string kb);
      bep = (if ep = "-" then None else Some (n_of_int ((int_of_string ep) land 7))) }
  | _ -> failwith ("bad enc: " ^ e)
let enc_ep (e:string) : int option =
  match String.split_on_char ' ' (String.trim e) with
  | [_;_;_;_;ep] -> if ep = "-" then None else Some (int_of_string ep)
  | _ -> None
let enc_of_board (b:board) : string =
  let bb = builder_of_board b in
  let pl = String.init 64 (fun i -> char_of_pc (List.nth bb.bpieces i)) in
  Printf.sprintf "%s %s %d %d %s" pl (match b.stm with White -> "w" | Black -> "b")
    (int_of_n b.crW) (int_of_n b.crB) (match b.epsq with None -> "-" | Some s -> string_of_int (int_of_n s))
let obs_of_board (b:board) : string =
  Printf.sprintf "ch=%s pin=%s pcs=%s,%s,%s,%s,%s,%s col=%s,%s comb=%s hash=%s"
    (u64s_of_n b.checkers) (u64s_of_n b.pinned) (u64s_of_n b.pP) (u64s_of_n b.pN) (u64s_of_n b.pB)
    (u64s_of_n b.pR) (u64s_of_n b.pQ) (u64s_of_n b.pK) (u64s_of_n b.cW) (u64s_of_n b.cB)
    (u64s_of_n b.comb) (u64s_of_n (get_hash b))
(* key=value tokens *)
let kv (s:string) : (string * string) list =
  List.filter_map (fun t -> match String.index_opt t '=' with
    | Some i -> Some (String.sub t 0 i, String.sub t (i+1) (String.length t - i - 1)) | None -> None)
    (String.split_on_char ' ' (String.trim s))
let get k l = try List.assoc k l with Not_found -> ""

let promo_of_code = function 1 -> Some Queen | 2 -> Some Knight | 3 -> Some Rook | 4 -> Some Bishop | 5 -> Some Pawn | 6 -> Some King | _ -> None
let code_of_promo = function None -> 0 | Some Queen -> 1 | Some Knight -> 2 | Some Rook -> 3 | Some Bishop -> 4 | Some Pawn -> 5 | Some King -> 6
let triple_of_mvs (s:string) : int*int*int =
  match String.split_on_char ',' s with [a;b;c] -> (int_of_string a, int_of_string b, int_of_string c) | _ -> failwith ("bad move " ^ s)
let cmove_of_triple (a,b,c) : cmove = { msrc = n_of_int a; mdst = n_of_int b; mpromo = promo_of_code c }
let triple_of_cmove (m:cmove) = (int_of_n m.msrc, int_of_n m.mdst, code_of_promo m.mpromo)
let triple_of_move (m:move) = (int_of_n m.src, int_of_n m.dst, code_of_promo m.promo)
let move_of_triple (a,b,c) : move = { src = n_of_int a; dst = n_of_int b; promo = promo_of_code c }
let mvs_of_triple (a,b,c) = Printf.sprintf "%d,%d,%d" a b c
let split_bar (s:string) : string list =
  (* fields are separated by " | " *)
  let n = String.length s in
  let rec go acc start i =
    if i + 2 >= n then List.rev (String.sub s start (n - start) :: acc)
    else if s.[i] = ' ' && s.[i+1] = '|' && s.[i+2] = ' ' then go (String.sub s start (i - start) :: acc) (i+3) (i+3)
    else go acc start (i+1) in
  go [] 0 0
let split_on_str (sep:char) (s:string) = String.split_on_char sep s
let tokens (s:string) = List.filter (fun x -> x <> "") (String.split_on_char ' ' (String.trim s))
let pos_of_enc (e:string) : pos = abs_board (from_builder_raw (builder_of_enc e))
let enc_of_pos (p:pos) : string =
  (* the neutral encoding of a spec position, with the library's stored ep square *)
  let pl = String.init 64 (fun i -> char_of_pc (List.nth p.placement i)) in
  let cr k q = (if k then 1 else 0) + (if q then 2 else 0) in
  Printf.sprintf "%s %s %d %d %s" pl (match p.turn with White -> "w" | Black -> "b")
    (cr p.wk p.wq) (cr p.bk p.bq)
    (match p.ep with None -> "-" | Some t -> string_of_int (match p.turn with White -> int_of_n t - 8 | Black -> int_of_n t + 8))
